"""C15 -- backoff sequences (structural clauses)."""
import ast
import copy
from sa.index import AnalysisError
from sa.paths import call_name
from rules.common import Quiet, list_delegation, txt, paths_of, loc, tests_on, strip_not, check_none_default

SPEC = {
    'explanation': (
        'Static analysis of iterutils.backoff_iter / backoff on all control-flow paths (loop unrolled 0..2). Decided: '
        'T9 no `raise ValueError` is reachable after a yield (validation precedes the first value) and the validations '
        'of C15 exist as canonicalised comparisons on the parameters (start < 0, factor < 1, stop == 0 or stop <= 0, '
        'stop < start, jitter outside [-1, 1], negative count); T7 on every path from a change of the current delay '
        '(multiplication by factor, reset to 1) to the next yield the clamp to stop is passed (test cur > stop then '
        'cur = stop, or min(cur, stop)); the first yielded value is start; T19c `count` is recognised as omitted by '
        '`is None` (an explicit 0 yields nothing); T17 backoff == list(backoff_iter(same arguments)) after rejecting '
        "'repeat'. Not decided: the default count (floating-point logarithm), jitter interval algebra, exact growth."),
    'decided': ['validation before first yield', 'range tests present', 'clamp on every growth path', 'count is None test', 'delegation'],
    'declined': ['default count arithmetic', 'jitter bounds as numbers (the formula shape b - b*j*r is decided)', 'exact geometric values'],
    'trusted_base': [], 'assumptions': [], 'exhaustive': True,
}
SPEC['explanation'] += ' T7.jitter: polynomial normal form of every jittered value is b - b*jitter*r for the un-jittered delay b and a single random draw r.'
SPEC['decided'] += ['jitter formula (polynomial normal form)']
SPEC['explanation'] += ' T20.nocache: the functions that build a fresh list / dict / generator per call are not memoised.'
SPEC['decided'] += ['results are fresh per call (no memoising decorator)']
MANIFEST = {
    'technique': 'must-pass-through / ordering analysis on enumerated CFG paths, comparison canonicalisation, delegation check',
    'text': ('Decides structural necessary conditions of C15: invalid parameters are rejected before anything is yielded, '
             'every growth step is clamped to stop before the next value, an explicit count of 0 is honoured, backoff '
             'delegates to backoff_iter. Numerical claims (default count, jitter bounds) are not decided (partial).'),
    'note': 'Loops unrolled 0..2; the generator is analysed as straight-line paths with yield events.',
}


def canon_cmp(e):
    """-> (subject, op, other) with `not` folded, or None."""
    e, neg = strip_not(e)
    if not (isinstance(e, ast.Compare) and len(e.ops) == 1):
        return None
    opn = type(e.ops[0]).__name__
    if neg:
        opn = {'Lt': 'GtE', 'GtE': 'Lt', 'Gt': 'LtE', 'LtE': 'Gt', 'Eq': 'NotEq', 'NotEq': 'Eq'}.get(opn, opn)
    return txt(e.left), opn, txt(e.comparators[0])


def run(ctx):
    from rules.common import check_not_memoised as _cnm
    _cnm(ctx, [ctx.program.func(n) for n in ['iterutils.backoff', 'iterutils.backoff_iter']])
    prog = ctx.program
    bi = prog.func('iterutils.backoff_iter')
    class HelperInl(Quiet):
        def inline(self, walker, op, callee, st):
            from rules.locks import is_module_helper
            return callee.cls is None and is_module_helper(op, callee)
    w, paths = paths_of(prog, bi, model=HelperInl(prog))
    if not any(sum(1 for o in p.ops if o.kind == 'yield') >= 2 for p in paths):
        # a `while True:` loop that leaves from the top of its body needs one more (partial) pass before a path with two yields
        # can end: ask again with one more unrolling
        class HelperInl3(HelperInl):
            loop_unroll = HelperInl.loop_unroll + 1
        w, paths = paths_of(prog, bi, model=HelperInl3(prog))
        ctx.notes.append('backoff_iter: no path with two yields at the standard loop bound; paths enumerated with one more unrolling')
    # validation before the first yield
    bad = None
    for p in paths:
        first_yield = next((o for o in p.ops if o.kind == 'yield'), None)
        if first_yield is None:
            continue
        for o in p.ops:
            if o.kind == 'raise' and o.seq > first_yield.seq:
                bad = (o, p)
    ctx.ob('T9.validate', bi.fq, 'no ValueError is raised after a value has been yielded', bad is None,
           loc=loc(bi, bad[0].node) if bad else bi.loc, path=bad[1].describe() if bad else None)
    # the range tests: each must exist as the atomic test that triggers a ValueError path before the first yield
    import re as _re

    def norm(e):
        t = txt(w.expand(e))
        return _re.sub(r'float\((\w+)\)', r'\1', t)
    NEG = {'Lt': 'GtE', 'GtE': 'Lt', 'Gt': 'LtE', 'LtE': 'Gt', 'Eq': 'NotEq', 'NotEq': 'Eq'}
    atoms = []          # canonical (subject, op, other) comparisons that, when true, lead to raise ValueError
    chains = []         # (lo, op1, mid, op2, hi) chained comparisons that, when FALSE, lead to raise ValueError
    raising_texts = set()
    for p in paths:
        if p.kind != 'raise' or 'ValueError' not in str(p.outcome[1]):
            continue
        if any(o.kind == 'yield' for o in p.ops):
            continue
        tests = [o for o in p.ops if o.kind == 'test']
        if not tests:
            continue
        o = tests[-1]
        e, neg = strip_not(o.val)
        truth = (o.info != neg)
        raising_texts.add(('' if truth else 'not ') + norm(e))
        if isinstance(e, ast.Compare) and len(e.ops) == 1:
            opn = type(e.ops[0]).__name__
            if not truth:
                opn = NEG.get(opn, opn)
            atoms.append((norm(e.left), opn, norm(e.comparators[0])))
        elif isinstance(e, ast.Compare) and len(e.ops) == 2 and not truth:
            chains.append((norm(e.left), type(e.ops[0]).__name__, norm(e.comparators[0]), type(e.ops[1]).__name__, norm(e.comparators[1])))
    raising_tests = [(None, [a], t) for a, t in zip(atoms, sorted(raising_texts))] or []

    def has(pred):
        return any(pred(c) for c in atoms)
    zero = ('0', '0.0')
    one = ('1', '1.0')
    checks = [
        ('start < 0 rejected', lambda c: (c[0] == 'start' and c[1] == 'Lt' and c[2] in zero) or (c[2] == 'start' and c[1] == 'Gt' and c[0] in zero)),
        ('factor < 1 rejected', lambda c: (c[0] == 'factor' and c[1] == 'Lt' and c[2] in one) or (c[2] == 'factor' and c[1] == 'Gt' and c[0] in one)),
        ('stop == 0 rejected', lambda c: (c[0] == 'stop' and c[1] in ('Eq', 'LtE') and c[2] in zero) or (c[2] == 'stop' and c[1] in ('Eq', 'GtE') and c[0] in zero)),
        ('stop < start rejected', lambda c: (c[0] == 'stop' and c[1] == 'Lt' and c[2] == 'start') or (c[0] == 'start' and c[1] == 'Gt' and c[2] == 'stop')),
        ('negative count rejected', lambda c: (c[0] == 'count' and c[1] == 'Lt' and c[2] in zero) or (c[2] == 'count' and c[1] == 'Gt' and c[0] in zero)),
    ]
    for what, pred in checks:
        ctx.ob('T9.range', bi.fq, what + ' (raises ValueError)', has(pred), loc=bi.loc,
               detail='raising tests: %s' % sorted(raising_texts))
    m1 = ('-1', '-1.0')
    jit = any(lo in m1 and o1 == 'LtE' and mid == 'jitter' and o2 == 'LtE' and hi in one for lo, o1, mid, o2, hi in chains) or \
        any(hi in m1 and o1 == 'GtE' and mid == 'jitter' and o2 == 'GtE' and lo in one for lo, o1, mid, o2, hi in chains) or \
        (has(lambda c: (c[0] == 'jitter' and c[1] == 'Lt' and c[2] in m1) or (c[2] == 'jitter' and c[1] == 'Gt' and c[0] in m1)) and
         has(lambda c: (c[0] == 'jitter' and c[1] == 'Gt' and c[2] in one) or (c[2] == 'jitter' and c[1] == 'Lt' and c[0] in one)))
    ctx.ob('T9.range', bi.fq, 'jitter outside [-1, 1] rejected (raises ValueError)', jit, loc=bi.loc)
    # T7 clamp, decided on values: on the paths without jitter the value yielded is the running delay itself; for every two
    # consecutive yields the later value V2 is the earlier one unchanged, or `stop` / min(.., stop), or the path evaluated a
    # comparison of V2 with stop between the two yields whose outcome says V2 does not exceed stop
    n_checked = 0
    for p in paths:
        ts_all = tests_on(w, p)
        jt = [truth for t, truth, o in ts_all if t == 'jitter']
        if jt and any(jt) and not all(jt):
            continue          # jitter inconsistently on and off: not a feasible path

        def base(v):
            # the un-jittered delay a yielded value is computed from:  B  or  B -/+ (B * jitter * random())
            e = w.expand(v)
            if isinstance(e, ast.BinOp) and isinstance(e.op, (ast.Sub, ast.Add)) and txt(e.left) in txt(e.right):
                return e.left
            return e
        ys = [o for o in p.ops if o.kind == 'yield']
        for y1, y2 in zip(ys, ys[1:]):
            v1, v2 = norm(base(y1.val)), norm(base(y2.val))
            if v1 == v2:
                continue          # no change of the delay between the two yields
            n_checked += 1
            ok = v2 == 'stop' or (v2.replace(' ', '').startswith('min(') and 'stop' in v2)
            det = 'next value `%s`' % txt(w.expand(y2.val))
            if not ok:
                for t, truth, o in ts_all:
                    if not (y1.seq < o.seq < y2.seq):
                        continue
                    e, neg = strip_not(o.val)
                    if not (isinstance(e, ast.Compare) and len(e.ops) == 1):
                        continue
                    l, r, opn = norm(e.left), norm(e.comparators[0]), type(e.ops[0]).__name__
                    tr = (o.info != neg)
                    if (l, r) == (v2, 'stop'):
                        ok = ok or (opn in ('Gt', 'GtE') and not tr) or (opn in ('Lt', 'LtE') and tr)
                    elif (l, r) == ('stop', v2):
                        ok = ok or (opn in ('Lt', 'LtE') and not tr) or (opn in ('Gt', 'GtE') and tr)
            ctx.ob('T7.clamp', bi.fq, 'between two yields a changed delay is compared with / clamped to stop before it is yielded',
                   ok, loc=loc(bi, y2.node), detail=det, path=p.describe() if not ok else None)
    if n_checked == 0:
        raise AnalysisError('no change of the delay between two yields found in backoff_iter')
    # T7.jitter: polynomial normal form of every value yielded with jitter on: it is  b - b*jitter*r  for the un-jittered
    # delay b and one draw r in [0, 1) -- which lies between b and b*(1-jitter) for either sign of jitter.  (b + b*jitter*r,
    # a second draw, or a term without b would leave that interval.)
    def poly(e):
        if isinstance(e, ast.Constant) and isinstance(e.value, (int, float)) and not isinstance(e.value, bool):
            return {(): e.value} if e.value else {}
        if isinstance(e, ast.UnaryOp) and isinstance(e.op, ast.USub):
            return {k: -v for k, v in poly(e.operand).items()}
        if isinstance(e, ast.BinOp) and isinstance(e.op, (ast.Add, ast.Sub)):
            a, b = poly(e.left), poly(e.right)
            sign = 1 if isinstance(e.op, ast.Add) else -1
            out = dict(a)
            for k, v in b.items():
                out[k] = out.get(k, 0) + sign * v
            return {k: v for k, v in out.items() if v}
        if isinstance(e, ast.BinOp) and isinstance(e.op, ast.Mult):
            a, b = poly(e.left), poly(e.right)
            out = {}
            for k1, v1 in a.items():
                for k2, v2 in b.items():
                    k = tuple(sorted(k1 + k2))
                    out[k] = out.get(k, 0) + v1 * v2
            return {k: v for k, v in out.items() if v}
        if isinstance(e, ast.Call) and call_name(e) == 'float' and len(e.args) == 1:
            return poly(e.args[0])
        if isinstance(e, ast.Call) and call_name(e) in ('random.random', 'random') and not e.args:
            return {('<r>',): 1}
        return {(txt(e),): 1}
    n_j = 0
    seen_j = set()
    for p in paths:
        ts_all = tests_on(w, p)
        jt = [truth for t, truth, o in ts_all if t in ('jitter', 'float(jitter)')]
        if not jt or not all(jt):
            continue
        for y in [o for o in p.ops if o.kind == 'yield']:
            e = w.expand(y.val, literals=True)
            pl = poly(e)
            if not any('jitter' in k for k in pl):
                continue            # a value yielded before jitter is applied
            n_j += 1
            p0 = {k: v for k, v in pl.items() if 'jitter' not in k and '<r>' not in k}
            want = dict(p0)
            for k, v in p0.items():
                want[tuple(sorted(k + ('jitter', '<r>')))] = -v
            ok = bool(p0) and pl == want
            if (y.line, ok) in seen_j:
                continue
            seen_j.add((y.line, ok))
            ctx.ob('T7.jitter', bi.fq, 'a jittered value is b - b*jitter*r for the un-jittered delay b and one random draw r (so it lies '
                   'between b and b*(1-jitter) for either sign of jitter)', ok, loc=loc(bi, y.node),
                   detail='normal form %s' % sorted((list(k), v) for k, v in pl.items()), path=p.describe() if not ok else None)
    if n_j == 0:
        ctx.unknown('T7.jitter', bi.fq, 'no yielded value depending on jitter found on the jitter paths', bi.loc)
    for p in paths:
        fy = next((o for o in p.ops if o.kind == 'yield'), None)
        if fy is not None:
            v = txt(w.expand(fy.val))
            ok = v == 'start' or v.startswith('start - start * jitter') or v.startswith('cur') or 'start' in v
            ctx.ob('T9.first', bi.fq, 'the first value yielded derives from start', ok, loc=loc(bi, fy.node), detail=v)
    check_none_default(ctx, bi, 'count')
    # T17 delegation
    b = prog.func('iterutils.backoff')
    dl = list_delegation(prog, b, bi)
    ok = bool(dl) and all(got == {p: p for p in bi.params} for got, _ in dl)
    ctx.ob('T17', b.fq, 'backoff(...) == list(backoff_iter(same arguments))', ok, loc=b.loc)
    from sa.consteval import Folder, Unknown
    folder = Folder(prog.module('iterutils'))

    def is_repeat(e):
        if isinstance(e, ast.Constant):
            return e.value == 'repeat'
        if isinstance(e, ast.Name):
            try:
                return folder.name(e.id) == 'repeat'
            except Unknown:
                return False
        return False
    def repeat_test(t):
        return isinstance(t, ast.Compare) and len(t.ops) == 1 and isinstance(t.ops[0], ast.Eq) and (
            (txt(t.left) == 'count' and is_repeat(t.comparators[0])) or (txt(t.comparators[0]) == 'count' and is_repeat(t.left)))
    rej = any(isinstance(n, ast.If) and repeat_test(n.test) and any(isinstance(x, ast.Raise) for x in n.body)
              for n in ast.walk(b.node))
    ctx.ob('T17', b.fq, "backoff rejects count='repeat' (a list cannot be endless)", rej, loc=b.loc)
    # T25.ceil: the default count takes the ceiling of the true logarithm -- nothing rounds the logarithm (round / int / floor / trunc /
    # a floor division) on its way into ceil(): rounding first swallows a genuine fractional step and the last value falls short of stop
    def _resolved(e, depth=0):
        if isinstance(e, ast.Name) and depth < 4:
            defs = [a.value for a in ast.walk(bi.node) if isinstance(a, ast.Assign) and len(a.targets) == 1 and txt(a.targets[0]) == e.id]
            if len(defs) == 1 and e.id not in bi.params:
                return _resolved(defs[0], depth + 1)
        return e
    for c in ast.walk(bi.node):
        if isinstance(c, ast.Call) and (call_name(c) or '').split('.')[-1] == 'ceil' and c.args:
            a = copy.deepcopy(c.args[0])
            class _R(ast.NodeTransformer):
                def visit_Name(self, nd):
                    r = _resolved(nd)
                    return copy.deepcopy(r) if r is not nd else nd
            for _ in range(3):
                a = _R().visit(a)
            if not any(isinstance(x, ast.Call) and (call_name(x) or '').split('.')[-1] == 'log' for x in ast.walk(a)):
                continue
            rounding = [x for x in ast.walk(a) if (isinstance(x, ast.Call) and (call_name(x) or '').split('.')[-1] in
                                                    ('round', 'int', 'floor', 'trunc')) or
                        (isinstance(x, ast.BinOp) and isinstance(x.op, ast.FloorDiv))]
            ctx.ob('T25.ceil', bi.fq, 'the default count is the ceiling of the un-rounded logarithm of stop/start', not rounding,
                   loc=loc(bi, c), detail=txt(a)[:120])
    for r, n in (('T9.validate', 1), ('T9.range', 6), ('T7.clamp', 2), ('T17', 2), ('T19c', 1)):
        ctx.need(r, n)
